package main

// Engine `ccb` (property C20): a CCB dial returns only the connection that presents its fresh
// connect id.
//
// Three layers, all against the real code:
//   accept : ccb.acceptReversed (hook) on an in-memory listener — every arrival order of short
//            sequences of legitimate / rogue connections, compared step by step with the model's
//            accept goroutine;
//   proxy  : ccb.proxyRequestOnStream (hook) over a pipe — broker reply × replayed hello;
//   dial   : real ccb.Dial over loopback TCP against scripted brokers (cedar server handshake),
//            rogue reverse connections before/after the legitimate one, broker replies racing the
//            reverse connection, proxied and nested mode, 1–3 brokers of which any subset works.
// Observables: which scripted peer is at the far end of the returned connection, and whether the
// requester closed every other connection the scripted peers opened.

import (
	"context"
	"encoding/hex"
	"fmt"
	"io"
	"log/slog"
	"math/big"
	"math/bits"
	"net"
	"os"
	"regexp"
	"runtime"
	"runtime/debug"
	"sort"
	"strings"
	"sync"
	"sync/atomic"
	"time"

	"github.com/bbockelm/cedar/addresses"
	"github.com/bbockelm/cedar/ccb"
	"github.com/bbockelm/cedar/stream"
)

func init() { register(Engine{"ccb", runCcb}) }

const ccbGrace = 5 * time.Second // generous upper bound; every wait on it returns as soon as the awaited event happens

// ---------------------------------------------------------------------------------------
// generator

func ccbRandID(c *Ctx) string { return hex.EncodeToString(randBytes(c, 20)) }

func ccbAtom(c *Ctx, name string) ccbGreet {
	switch name {
	case "M":
		return ccbGreet{Class: "hello", Cmd: int64(ccb.CommandReverseConnect), Claim: "ID", Attr: "ClaimId"}
	case "W":
		return ccbGreet{Class: "hello", Cmd: int64(ccb.CommandReverseConnect), Claim: "RAND", Attr: "ClaimId", Rand: ccbRandID(c)}
	case "E":
		return ccbGreet{Class: "hello", Cmd: int64(ccb.CommandReverseConnect), Claim: "EMPTY", Attr: "ClaimId"}
	case "O":
		return ccbGreet{Class: "hello", Cmd: int64(ccb.CommandReverseConnect), Claim: "OLD", Attr: "ClaimId", Rand: ccbRandID(c)}
	case "X":
		return ccbGreet{Class: "hello", Cmd: int64(ccb.CommandRequest), Claim: "ID", Attr: "ClaimId"}
	case "G":
		return ccbGreet{Class: "garbage", Variant: "badflag"}
	case "C":
		return ccbGreet{Class: "closed", Variant: "immediate"}
	case "S":
		return ccbGreet{Class: "silent", Variant: "nothing"}
	}
	return ccbGreet{Class: "closed", Variant: "immediate"}
}

var ccbWrongClaims = []string{"RAND", "EMPTY", "ABSENT", "INT", "PREFIX", "UPPER", "SUFFIX", "SPACE", "OLD"}
var ccbWrongCmds = []int64{68, 0, -1, 70, 67, 4294967365, 69 << 8, 82}
var ccbGarbage = []string{"badflag", "toolarge", "shortint", "notad", "http", "intonly", "controlad", "random"}
var ccbClosed = []string{"immediate", "midheader", "midbody", "partialframe"}
var ccbSilent = []string{"nothing", "halfheader", "halfbody"}
var ccbAttrs = []string{"ClaimId", "ClaimId", "ClaimId", "claimid", "CLAIMID"}

// ccbRandGreet draws a greeting: kind = "match" | "rogue" | "" (any). others = contact positions
// of concurrent attempts whose id a rogue may present.
func ccbRandGreet(c *Ctx, kind string, allowSilent bool, others []int) ccbGreet {
	r := c.Rng.Intn(100)
	if kind == "match" || (kind == "" && r < 22) {
		return ccbGreet{Class: "hello", Cmd: int64(ccb.CommandReverseConnect), Claim: "ID", Attr: ccbAttrs[c.Rng.Intn(len(ccbAttrs))],
			Extras: c.Rng.Intn(2) == 0, Split: c.Rng.Intn(3) / 2 * (1 + c.Rng.Intn(60))}
	}
	r = c.Rng.Intn(100)
	switch {
	case r < 45:
		g := ccbGreet{Class: "hello", Cmd: int64(ccb.CommandReverseConnect), Attr: ccbAttrs[c.Rng.Intn(len(ccbAttrs))],
			Extras: c.Rng.Intn(2) == 0, Split: c.Rng.Intn(4) / 3 * (1 + c.Rng.Intn(60)), Rand: ccbRandID(c)}
		if len(others) > 0 && c.Rng.Intn(3) == 0 {
			g.Claim, g.Other = "OTHER", others[c.Rng.Intn(len(others))]
		} else {
			g.Claim = ccbWrongClaims[c.Rng.Intn(len(ccbWrongClaims))]
		}
		return g
	case r < 57:
		return ccbGreet{Class: "hello", Cmd: ccbWrongCmds[c.Rng.Intn(len(ccbWrongCmds))], Claim: "ID", Attr: "ClaimId", Extras: c.Rng.Intn(2) == 0}
	case r < 77:
		g := ccbGreet{Class: "garbage", Variant: ccbGarbage[c.Rng.Intn(len(ccbGarbage))]}
		if g.Variant == "random" {
			g.Junk = randBytes(c, 1+c.Rng.Intn(40))
		}
		return g
	case r < 93 || !allowSilent:
		return ccbGreet{Class: "closed", Variant: ccbClosed[c.Rng.Intn(len(ccbClosed))]}
	}
	return ccbGreet{Class: "silent", Variant: ccbSilent[c.Rng.Intn(len(ccbSilent))]}
}

// ---------------------------------------------------------------------------------------
// shared observation of the scripted peers

// observePeers waits (bounded) for every connection except `returned` to be closed by the
// requester. Connections that presented the attempt's own id but were not handed back are
// `spare`: the property says nothing about them; they are reported apart and not compared.
func observePeers(peers []*ccbPeerConn, returned int, deadline time.Time) (closed, open []int, spare []string) {
	for _, p := range peers {
		if p.Idx == returned {
			continue
		}
		d := time.Until(deadline)
		if d < 5*time.Millisecond {
			d = 5 * time.Millisecond
		}
		if p.Matching {
			// never waited for
			st := "o"
			if p.closedWithin(time.Millisecond) {
				st = "c"
			}
			spare = append(spare, fmt.Sprintf("%d%s", p.Idx, st))
			continue
		}
		if p.closedWithin(d) {
			closed = append(closed, p.Idx)
		} else {
			open = append(open, p.Idx)
		}
	}
	return
}

func showInts(l []int) string {
	s := make([]string, len(l))
	for i, x := range l {
		s[i] = fmt.Sprint(x)
	}
	return "[" + strings.Join(s, ",") + "]"
}

var (
	reCcbSpare   = regexp.MustCompile(` spare=\[[^\]]*\]`)
	reCcbIds     = regexp.MustCompile(` ids=\[[^\]]*\] draws=\d+`)
	reCcbAttRet  = regexp.MustCompile(`\| (std|prx) ret=\S+`)
	reCcbRet     = regexp.MustCompile(`^ok ret \S+$`)
	reCcbAllFail = regexp.MustCompile(`allFailed\[([^\]]*)\]`)
)

// ccbNorm removes what is deliberately not compared: spare connections, symbolic draw numbers,
// per-attempt results (only Dial's own result is observable), the op at which a return happens
// (the final state carries the result), and the order of the joined attempt errors.
func ccbNorm(s string) string {
	s = reCcbSpare.ReplaceAllString(s, "")
	s = reCcbIds.ReplaceAllString(s, "")
	s = reCcbAttRet.ReplaceAllString(s, "| $1")
	if reCcbRet.MatchString(s) {
		s = "ok"
	}
	s = reCcbAllFail.ReplaceAllStringFunc(s, func(m string) string {
		in := reCcbAllFail.FindStringSubmatch(m)[1]
		if in == "" {
			return m
		}
		parts := strings.Split(in, ",")
		sort.Strings(parts)
		return "allFailed[" + strings.Join(parts, ",") + "]"
	})
	return s
}

// Once a handful of violations are on record the remaining cases of a run are skipped: every
// violating case costs its full grace period, and the replay is already there.
var ccbViolations atomic.Int32

const ccbEnough = 10

type ccbOut struct {
	cs         Case
	violations []Violation
	counts     []string
	nontrivial bool
	sample     any
}

func (o *ccbOut) log(op, real string) {
	o.cs.Ops = append(o.cs.Ops, op)
	o.cs.Real = append(o.cs.Real, real)
}
func (o *ccbOut) count(k string) { o.counts = append(o.counts, k) }
func (o *ccbOut) violate(key, what, expected, observed string) {
	ccbViolations.Add(1)
	o.violations = append(o.violations, Violation{Property: "C20", Key: key, What: what, Ops: append([]string{}, o.cs.Ops...), Expected: expected, Observed: observed})
}

func ccbKind(g ccbGreet) string {
	if g.Class == "hello" {
		if g.Cmd != int64(ccb.CommandReverseConnect) {
			return "hello-wrongcmd"
		}
		return "hello-" + g.Claim
	}
	return g.Class + "-" + g.Variant
}

// ---------------------------------------------------------------------------------------
// layer `accept`: acceptReversed on an in-memory listener

func ccbAcceptCase(label string, gs []ccbGreet, old []string) *ccbOut {
	o := &ccbOut{cs: Case{Label: label}}
	if ccbViolations.Load() >= ccbEnough {
		o.count("skipped:enough-violations")
		return o
	}
	defer func() {
		if r := recover(); r != nil {
			o.violations = append(o.violations, Violation{Property: "C13", Key: "C13:panic:ccb-accept", What: fmt.Sprint("panic: ", r), Ops: o.cs.Ops})
			o.count("harness-panic-swallowed") // the case is lost for C20 whoever panicked: ./check reports it
		}
	}()
	id, _ := ccb.GenerateConnectID()
	env := claimEnv{id: id, old: old}
	l := newMemListener(len(gs))
	ctx, cancel := context.WithCancel(bg)
	defer cancel()
	type res struct {
		conn net.Conn
		err  error
	}
	resCh := make(chan res, 1)
	go func() {
		conn, err := ccb.VerifAcceptReversed(ctx, l, id)
		resCh <- res{conn, err}
	}()
	o.log("std ID", "ok")
	var peers []*ccbPeerConn
	var got *res
	blocked := false
	wait := func(d time.Duration) {
		if got != nil {
			return
		}
		select {
		case r := <-resCh:
			got = &r
		case <-time.After(d):
		}
	}
	for i, g := range gs {
		p := pipePeer(l, i, g, env)
		peers = append(peers, p)
		o.log("arrive "+p.Tok, "ok")
		o.log("pick accept", "ok")
		o.count("accept:greet:" + ccbKind(g))
		switch {
		case got != nil:
		case g.Class == "silent":
			blocked = true
		case blocked:
		case p.Matching:
			wait(ccbGrace)
		default:
			// the loop must get past this connection before the next one is offered
			if !p.SelfClosed {
				select {
				case <-p.closedCh:
				case r := <-resCh:
					got = &r
				case <-time.After(ccbGrace):
				}
			} else {
				drainWait(l, ccbGrace)
			}
		}
	}
	if got == nil {
		// nothing matched: the context ends, then (as dialStandard's defer does) the listener closes
		if !blocked {
			drainWait(l, ccbGrace)
		}
		cancel()
		o.log("cancel", "ok")
		if blocked {
			wait(ccbGrace)
		} else {
			time.Sleep(200 * time.Microsecond)
		}
		_ = l.Close()
		o.log("pick ctx", "ok")
		wait(ccbGrace)
	} else {
		_ = l.Close()
		cancel()
		o.log("cancel", "ok")
	}
	returned := -1
	acc := "failed"
	if got == nil {
		acc = "hung"
		o.violations = append(o.violations, Violation{Property: "C19", Key: "C19:ccb-accept-hung", What: "acceptReversed did not return after cancel + listener close", Ops: o.cs.Ops})
	} else if got.conn != nil {
		returned = probeFarEnd(got.conn, peers, []byte("verif-token-"+id[:8]))
		acc = fmt.Sprintf("got:%d", returned)
	}
	closed, open, spare := observePeers(peers, returned, time.Now().Add(ccbGrace))
	o.log("accstate", fmt.Sprintf("ok acc=%s closed=%s open=%s spare=[%s]", acc, showInts(closed), showInts(open), strings.Join(spare, ",")))
	// property oracle on the implementation
	if got != nil && got.conn != nil {
		if returned < 0 {
			o.violate("C20:accept-returned-unknown", "acceptReversed returned a connection whose far end is none of the scripted peers", "one of the scripted connections", "unknown")
		} else if !peers[returned].Matching {
			o.violate("C20:accept-returned-nonmatching:"+ccbKind(peers[returned].G), "acceptReversed returned a connection that did not present the request's connect id",
				"only a CCB_REVERSE_CONNECT hello with ClaimId == connect id", peers[returned].G.String())
		}
	}
	for _, k := range open {
		o.violate("C20:accept-left-open:"+ccbKind(peers[k].G), "a connection with a wrong id / malformed greeting was not closed", "closed", fmt.Sprintf("connection %d (%s) still open", k, peers[k].G))
	}
	if got != nil && got.conn != nil {
		_ = got.conn.Close()
	}
	for _, p := range peers {
		p.shut()
	}
	o.nontrivial = len(gs) > 0
	o.count(fmt.Sprintf("accept:len:%d", len(gs)))
	if returned >= 0 {
		o.count("accept:outcome:returned")
	} else {
		o.count("accept:outcome:none")
	}
	return o
}

// drainWait waits until the accept loop has taken everything out of the listener's backlog.
func drainWait(l *memListener, d time.Duration) {
	deadline := time.Now().Add(d)
	for len(l.ch) > 0 && time.Now().Before(deadline) {
		time.Sleep(50 * time.Microsecond)
	}
	time.Sleep(100 * time.Microsecond)
}

// ---------------------------------------------------------------------------------------
// layer `proxy`: proxyRequestOnStream over a pipe

func ccbProxyCase(label string, reply string, msg string, hello ccbGreet, old []string) *ccbOut {
	return ccbProxyCaseClaim(label, reply, msg, hello, old, "", "")
}

// ccbProxyCaseClaim: the broker's reply ad itself carries a ClaimId of kind `replyClaim` (ccbReplyClaims).
func ccbProxyCaseClaim(label string, reply string, msg string, hello ccbGreet, old []string, replyClaim, replyRand string) *ccbOut {
	o := &ccbOut{cs: Case{Label: label}}
	if ccbViolations.Load() >= ccbEnough {
		o.count("skipped:enough-violations")
		return o
	}
	defer func() {
		if r := recover(); r != nil {
			o.violations = append(o.violations, Violation{Property: "C13", Key: "C13:panic:ccb-proxy", What: fmt.Sprint("panic: ", r), Ops: o.cs.Ops})
			o.count("harness-panic-swallowed") // the case is lost for C20 whoever panicked: ./check reports it
		}
	}()
	id, _ := ccb.GenerateConnectID()
	env := claimEnv{id: id, old: old}
	rc, bc := net.Pipe()
	// a silent hello after a success reply: the library waits for a hello that never comes and is
	// ended through its context. The cancel is tied to the EVENT "the reply has been consumed" (net.Pipe
	// is synchronous: Write returns when the library has read every byte), not to a clock that might
	// run out before the reply was even read on a busy machine.
	silentOK := hello.Class == "silent" && reply == "ok"
	ctx, cancel := context.WithTimeout(bg, ccbIOBound)
	defer cancel()
	type res struct {
		conn net.Conn
		err  error
	}
	resCh := make(chan res, 1)
	go func() {
		conn, err := ccb.VerifProxyRequestOnStream(ctx, rc, stream.NewStream(rc), "7", "", id, "", "verif")
		resCh <- res{conn, err}
	}()
	var wg sync.WaitGroup
	wg.Add(1)
	var tok, claimTok string
	var matching bool
	idSeen := ""
	go func() {
		defer wg.Done()
		bs := stream.NewStream(bc)
		ad, err := ccb.ReadControlAd(bg, bs)
		if err == nil {
			idSeen = ccb.AdString(ad, ccb.AttrClaimID)
		}
		var b []byte
		var after string
		var pre []byte
		switch reply {
		case "ok":
			attrs := map[string]any{ccb.AttrResult: true}
			claimTok = ccbWithReplyClaim(attrs, replyClaim, replyRand, &env)
			pre = controlAdWire(ccb.NewAd(attrs))
		case "fail":
			attrs := map[string]any{ccb.AttrResult: false, ccb.AttrErrorString: msg}
			claimTok = ccbWithReplyClaim(attrs, replyClaim, replyRand, &env)
			pre = controlAdWire(ccb.NewAd(attrs))
		case "noresult":
			pre = controlAdWire(ccb.NewAd(map[string]any{ccb.AttrErrorString: msg}))
		case "unsup":
			pre = controlAdWire(ccb.NewAd(map[string]any{ccb.AttrResult: false, ccb.AttrCCBStreamingUnsupported: true}))
		case "junk":
			pre = []byte{0x7f, 1, 2, 3, 4, 5, 6}
		case "close":
			_, _, tok, matching = hello.wire(env)
			_ = bc.Close()
			return
		}
		b, after, tok, matching = hello.wire(env)
		_ = bc.SetWriteDeadline(time.Now().Add(ccbIOBound))
		if _, err := bc.Write(append(pre, b...)); err != nil {
			return
		}
		if silentOK {
			time.Sleep(2 * time.Millisecond) // let it park in the read of the hello (either way it must end with the context's error)
			cancel()
		}
		if after != "open" {
			_ = bc.Close()
		}
	}()
	var r res
	select {
	case r = <-resCh:
	case <-time.After(3 * ccbIOBound):
		o.violations = append(o.violations, Violation{Property: "C19", Key: "C19:ccb-proxy-hung", What: "proxyRequestOnStream did not return", Ops: o.cs.Ops})
	}
	_ = bc.Close()
	_ = rc.Close()
	wg.Wait()
	rt := map[string]string{"ok": "ok", "fail": "fail:" + dashIfEmpty(msg), "noresult": "fail:" + dashIfEmpty(msg), "unsup": "unsup", "junk": "readerr", "close": "readerr"}[reply]
	real := ""
	if r.conn != nil && r.err == nil {
		real = "ok conn"
		if r.conn != rc {
			o.violate("C20:proxy-returned-other-conn", "proxyRequestOnStream returned a connection other than the broker socket", "the broker connection", "another connection")
		}
	} else if r.err != nil {
		real = "err " + ccbErrClass(r.err.Error())
	} else {
		real = "err none"
	}
	if reply == "ok" || reply == "fail" {
		rt += claimTok
	}
	o.log(fmt.Sprintf("proxy ID 1 1 0 %s %s", rt, tok), real)
	if idSeen != id {
		o.violate("C20:proxy-request-id", "the request ad did not carry the connect id handed to proxyRequestOnStream", id, idSeen)
	}
	if r.conn != nil && r.err == nil && !(reply == "ok" && matching) {
		o.violate("C20:proxy-returned-nonmatching:"+reply+":"+ccbKind(hello), "proxied dial handed back the broker connection without a success reply followed by the matching hello",
			"error", "connection returned after reply="+reply+" (reply's own ClaimId: "+dashIfEmpty(replyClaim)+") hello="+hello.String())
	}
	if replyClaim != "" {
		o.count("proxy:reply-claim:" + replyClaim + ":hello:" + hello.Claim)
	}
	o.nontrivial = true
	o.count("proxy:reply:" + reply)
	o.count("proxy:hello:" + ccbKind(hello))
	if real == "ok conn" {
		o.count("proxy:outcome:returned")
	} else {
		o.count("proxy:outcome:" + strings.SplitN(strings.TrimPrefix(real, "err "), ":", 2)[0])
	}
	return o
}

// ---------------------------------------------------------------------------------------
// layer `dial`: real ccb.Dial against scripted brokers

type ccbDialSpec struct {
	Label      string
	Plans      []ccbPlan
	Proxy      bool
	Require    bool
	Sequential bool
	Stagger    time.Duration
	Timeout    time.Duration
	NestedBad  []bool // per contact: a nested contact whose Raw does not split
}

func ccbContact(b *ccbBroker, plan ccbPlan, bad bool) addresses.CCBContact {
	if plan.Kind == "nested" {
		raw := "<" + b.addr + ">#7#8#9"
		if bad {
			return addresses.CCBContact{BrokerAddr: "<" + b.addr + ">#7", CCBID: "9", Raw: "#"}
		}
		br, id, _ := addresses.SplitCCBContact(raw)
		return addresses.CCBContact{BrokerAddr: br, CCBID: id, Raw: raw}
	}
	return addresses.CCBContact{BrokerAddr: b.addr, CCBID: "7", Raw: b.addr + "#7"}
}

var ccbIDMu sync.Mutex
var ccbIDsSeen = map[string]string{}

// ccbIDsObserved: the connect ids the scripted BROKERS received in the requests of real Dials (every
// path that asks a broker: standard, proxied, nested), in order of observation.
var ccbIDsObserved []string

// ccbRelatedness: minimum Hamming distance over all pairs of 160-bit ids (independent random values
// differ in about 80 bits; fewer than 40 has probability below 1e-10 per pair), and how many
// neighbouring ids differ by the same arithmetic step as the pair before (a counter / stepped seed).
func ccbRelatedness(ids []string) (minHam int, a, b string, sameStep int, usable int) {
	minHam = 160
	var vals [][]byte
	var keep []string
	for _, id := range ids {
		if v, err := hex.DecodeString(id); err == nil && len(v) == 20 {
			vals = append(vals, v)
			keep = append(keep, id)
		}
	}
	usable = len(vals)
	if usable > 1500 {
		vals, keep = vals[:1500], keep[:1500]
	}
	for i := range vals {
		for j := i + 1; j < len(vals); j++ {
			h := 0
			for k := range vals[i] {
				h += bits.OnesCount8(vals[i][k] ^ vals[j][k])
			}
			if h < minHam {
				minHam, a, b = h, keep[i], keep[j]
			}
		}
	}
	var prevStep *big.Int
	for i := 1; i < len(vals); i++ {
		step := new(big.Int).Sub(new(big.Int).SetBytes(vals[i]), new(big.Int).SetBytes(vals[i-1]))
		if prevStep != nil && step.Cmp(prevStep) == 0 {
			sameStep++
		}
		prevStep = step
	}
	return
}

var ccbIPCounter int

// ccbNextIP hands every scenario its own loopback address (all of 127.0.0.0/8 is local on
// Linux). Ephemeral ports are recycled quickly; with a private address a scripted peer that
// connects late can never land on a listener of another scenario (or another process).
func ccbNextIP() string {
	ccbIDMu.Lock()
	defer ccbIDMu.Unlock()
	ccbIPCounter++
	n := ccbIPCounter
	return fmt.Sprintf("127.%d.%d.%d", 1+os.Getpid()%250, (n/250)%250, 1+n%250)
}

func ccbDialCase(sp ccbDialSpec, old []string) *ccbOut {
	o := &ccbOut{cs: Case{Label: sp.Label}}
	if ccbViolations.Load() >= ccbEnough {
		o.count("skipped:enough-violations")
		return o
	}
	defer func() {
		if r := recover(); r != nil {
			o.violations = append(o.violations, Violation{Property: "C13", Key: "C13:panic:ccb-dial", What: fmt.Sprint("panic: ", r), Ops: o.cs.Ops})
			o.count("harness-panic-swallowed") // the case is lost for C20 whoever panicked: ./check reports it
		}
	}()
	wctx, wcancel := context.WithCancel(bg)
	w := &ccbDialWorld{ctx: wctx, cancel: wcancel, dialDone: make(chan struct{}), old: old, ip: ccbNextIP()}
	defer wcancel()
	var contacts []addresses.CCBContact
	for i, pl := range sp.Plans {
		b, err := newCcbBroker(w, i, pl)
		if err != nil {
			o.cs.Ops = nil
			return o
		}
		w.brokers = append(w.brokers, b)
		bad := i < len(sp.NestedBad) && sp.NestedBad[i]
		contacts = append(contacts, ccbContact(b, pl, bad))
	}
	defer func() {
		for _, b := range w.brokers {
			b.stop()
		}
	}()
	opts := ccb.DialOptions{Security: ccbSec(ccbVerStreaming), ListenAddr: w.ip + ":0", Timeout: sp.Timeout, Stagger: sp.Stagger,
		RequireStreaming: sp.Require, TargetDesc: "verif"}
	if sp.Sequential {
		opts.Stagger = -1
	}
	if sp.Proxy {
		opts.ProxyReturnAddr = "<127.0.0.1:1?ccbid=127.0.0.1:1%231>"
	}
	t0 := time.Now()
	conn, err := ccb.Dial(bg, contacts, opts)
	tRet := time.Now()
	close(w.dialDone)
	for _, b := range w.brokers {
		b.quiesce(5 * time.Second)
	}
	// the machine was too busy for this scenario's clock (a working broker could not even be
	// reached before the dial's deadline): nothing can be concluded from it
	if err != nil {
		nDown, nDialErr := 0, strings.Count(ccbDialErrClass(err), "brokerDial")
		for _, pl := range sp.Plans {
			if pl.Kind == "down" {
				nDown++
			}
		}
		if nDialErr > nDown {
			o.cs.Ops = nil
			o.count("dial:skipped:broker-unreachable-under-load")
			return o
		}
	}
	// launch order = order in which the brokers were contacted
	var launched []*ccbBroker
	for _, b := range w.brokers {
		b.mu.Lock()
		if b.contacted {
			launched = append(launched, b)
		}
		b.mu.Unlock()
	}
	sort.SliceStable(launched, func(i, j int) bool { return launched[i].tcpAt.Before(launched[j].tcpAt) })
	lpos := map[int]int{}
	for i, b := range launched {
		lpos[b.Pos] = i
	}
	// malformed nested contacts never reach a broker: they are launched (and fail) without a trace.
	// They are placed where the model needs them: see below.
	// who is at the far end?
	winB, winK := -1, -1
	if conn != nil {
		tokn := []byte(fmt.Sprintf("verif-token-%d", t0.UnixNano()))
		_ = conn.SetWriteDeadline(time.Now().Add(ccbIOBound))
		_, _ = conn.Write(tokn)
		deadline := time.Now().Add(ccbIOBound)
	search:
		for time.Now().Before(deadline) {
			for _, b := range w.brokers {
				b.mu.Lock()
				ps := append([]*ccbPeerConn{}, b.peers...)
				b.mu.Unlock()
				for _, p := range ps {
					if p.conn != nil && strings.Contains(string(p.received()), string(tokn)) {
						winB, winK = b.Pos, p.Idx
						break search
					}
				}
			}
			time.Sleep(time.Millisecond)
		}
	}
	// closed state of everything else
	deadline := time.Now().Add(ccbGrace)
	type attObs struct {
		closed, open []int
		spare        []string
	}
	obs := map[int]attObs{}
	for _, b := range launched {
		b.mu.Lock()
		ps := append([]*ccbPeerConn{}, b.peers...)
		b.mu.Unlock()
		ret := -1
		if b.Pos == winB {
			ret = winK
		}
		cl, op, spn := observePeers(ps, ret, deadline)
		obs[b.Pos] = attObs{cl, op, spn}
	}

	// ---- the linearisation handed to the model -------------------------------------------
	// Attempts are numbered in launch order (= order in which the brokers were contacted). All
	// recorded events are replayed in time order (stamps are taken before each action, so a
	// cause precedes its effect); the launch of attempt a is explained by a `stagger` unless the
	// delivery of an earlier failure has already launched it.
	kindCh := func(b *ccbBroker) string {
		if b.Pos < len(sp.NestedBad) && sp.NestedBad[b.Pos] {
			return "x"
		}
		if b.Plan.Kind == "nested" {
			return "n"
		}
		return "f"
	}
	cstr := ""
	for _, b := range launched {
		cstr += kindCh(b)
	}
	for _, b := range w.brokers {
		if _, ok := lpos[b.Pos]; !ok {
			cstr += kindCh(b)
		}
	}
	var curA int // attempt whose own id the token "ID" stands for
	rewrite := func(op string) string {
		if strings.HasSuffix(op, ":ID") {
			return strings.TrimSuffix(op, "ID") + fmt.Sprintf("@%d", curA)
		}
		if i := strings.Index(op, "@P"); i >= 0 {
			var k int
			fmt.Sscanf(op[i+2:], "%d", &k)
			if a, ok := lpos[k]; ok {
				return op[:i] + fmt.Sprintf("@%d", a)
			}
			return op[:i] + "rnd"
		}
		return op
	}
	o.log(fmt.Sprintf("dial %s %s %s 0 %s", b01(sp.Sequential), b01(sp.Proxy), b01(sp.Require), cstr), "ok")
	winA := -1
	if winB >= 0 {
		winA = lpos[winB]
	}
	type tlEntry struct {
		at   time.Time
		a    int
		kind string // launch | ops | race | prx | down
		ops  []string
		peer int
	}
	var tl []tlEntry
	for _, b := range launched {
		a := lpos[b.Pos]
		tl = append(tl, tlEntry{at: b.tcpAt, a: a, kind: "launch"})
		if b.Plan.Kind == "down" {
			tl = append(tl, tlEntry{at: b.tcpAt.Add(time.Nanosecond), a: a, kind: "down"})
		}
		if (b.Plan.Kind == "proxy" || b.Plan.Kind == "nested") && b.Plan.Version == ccbVerNoStreaming {
			tl = append(tl, tlEntry{at: b.tcpAt.Add(time.Nanosecond), a: a, kind: "prx", ops: []string{"PRX", "readerr", "closed"}})
		}
		b.mu.Lock()
		for _, e := range b.log {
			k := "ops"
			if len(e.Ops) > 0 && e.Ops[0] == "RACE" {
				k = "race"
			} else if len(e.Ops) > 0 && e.Ops[0] == "PRX" {
				k = "prx"
			}
			tl = append(tl, tlEntry{at: e.At, a: a, kind: k, ops: e.Ops, peer: e.Peer})
		}
		b.mu.Unlock()
	}
	sort.SliceStable(tl, func(i, j int) bool { return tl[i].at.Before(tl[j].at) })
	modelLaunched := 1
	total := len(cstr)
	blocked := map[int]bool{}
	status := map[int]string{} // "" pending | ok | err   (harness-side bookkeeping of each attempt)
	// A failed attempt's error sits in Dial's results channel; when Dial takes it is not
	// observable, except that taking it launches the next broker. Deliveries are therefore
	// placed lazily: as late as the observed launches allow.
	var pendingFail []int
	deliverErr := func(a int) { pendingFail = append(pendingFail, a) }
	flushOne := func() {
		o.log(fmt.Sprintf("deliver %d", pendingFail[0]), "ok")
		pendingFail = pendingFail[1:]
		if modelLaunched < total {
			modelLaunched++
		}
	}
	var post []string // attempt events after Dial returned
	if len(launched) == 0 && len(sp.NestedBad) > 0 {
		deliverErr(0)
	}
	for _, e := range tl {
		a := e.a
		b := launched[a]
		curA = a
		switch e.kind {
		case "launch":
			for modelLaunched < a+1 {
				if len(pendingFail) > 0 {
					flushOne()
				} else {
					o.log("stagger", "ok")
					modelLaunched++
				}
			}
		case "down":
			if sp.Proxy || b.Plan.Kind == "nested" {
				o.log(fmt.Sprintf("prx %d 0 1 readerr closed", a), "ok")
			} else {
				o.log(fmt.Sprintf("att %d brokerfail", a), "ok")
			}
			status[a] = "err"
			deliverErr(a)
		case "prx":
			if e.at.After(tRet) {
				continue // the dial was over before this broker answered: the attempt was cancelled
			}
			sok := b.Plan.Version != ccbVerNoStreaming
			o.log(rewrite(fmt.Sprintf("prx %d 1 %s %s %s", a, b01(sok), e.ops[1], e.ops[2])), "ok")
			good := sok && b.Plan.PReply == "ok" && len(b.peers) > 0 && b.peers[0].Matching
			if good {
				status[a] = "ok"
			} else {
				status[a] = "err"
				deliverErr(a)
			}
		case "race":
			// failure reply and matching hello issued back to back: the order the requester saw
			// is read off the outcome
			rep, arr := e.ops[1], rewrite(e.ops[2])
			if winA == a {
				o.log(fmt.Sprintf("att %d %s", a, arr), "ok")
				o.log(fmt.Sprintf("att %d %s", a, rep), "ok")
				o.log(fmt.Sprintf("att %d pick accept", a), "ok")
				status[a] = "ok"
				o.count("dial:race:accept-won")
			} else {
				o.log(fmt.Sprintf("att %d %s", a, rep), "ok")
				o.log(fmt.Sprintf("att %d pick reply", a), "ok")
				post = append(post, fmt.Sprintf("att %d %s", a, arr))
				post = append(post, fmt.Sprintf("att %d pick accept", a))
				status[a] = "err"
				deliverErr(a)
				o.count("dial:race:reply-won")
			}
		case "ops":
			late := e.at.After(tRet)
			for _, op := range e.ops {
				line := rewrite(fmt.Sprintf("att %d %s", a, op))
				if late {
					post = append(post, line)
				} else {
					o.log(line, "ok")
				}
			}
			if late || status[a] != "" {
				continue
			}
			op := e.ops[0]
			switch {
			case strings.HasPrefix(op, "arrive silent"):
				blocked[a] = true
			case strings.HasPrefix(op, "arrive "):
				// did this arrival give the attempt its connection?
				if e.peer >= 0 && e.peer < len(b.peers) {
					if pm := b.peers[e.peer]; pm.Matching && !pm.Refused && !blocked[a] {
						status[a] = "ok"
					}
				}
			case strings.HasPrefix(op, "reply failure"), op == "reply readerr":
				status[a] = "err"
				deliverErr(a)
			}
		}
	}
	realRet := ""
	pickCtxAll := func() {
		// every attempt still running sees its context end and returns
		for a, b := range launched {
			if b.Plan.Kind == "std" && !sp.Proxy {
				o.log(fmt.Sprintf("att %d pick ctx", a), "ok")
			}
		}
	}
	switch {
	case conn != nil && err == nil:
		o.log(fmt.Sprintf("deliver %d", winA), "ok")
		realRet = fmt.Sprintf("conn:%d:%d", winA, winK)
		pickCtxAll()
	case err != nil:
		realRet = ccbDialErrClass(err)
		if realRet == "err:timeout" {
			o.log("dcancel", "ok")
			o.log("dpickctx", "ok")
			pickCtxAll()
		} else {
			for len(pendingFail) > 0 {
				flushOne()
			}
			if strings.Contains(realRet, "ctx") {
				// the attempts' own ctx errors were taken from the results channel before ctx.Done
				o.log("dcancel", "ok")
				pickCtxAll()
				for a := range launched {
					if status[a] == "" {
						o.log(fmt.Sprintf("deliver %d", a), "ok")
					}
				}
			} else {
				pickCtxAll()
			}
		}
	}
	for _, l := range post {
		o.log(l, "ok")
	}
	var sb strings.Builder
	fmt.Fprintf(&sb, "ok ret=%s launched=%d", realRet, max(len(launched), 1))
	if len(launched) == 0 {
		sb.WriteString(" | prx closed=[0] open=[]")
	}
	for _, b := range launched {
		if b.Plan.Kind == "proxy" || b.Plan.Kind == "nested" || sp.Proxy {
			// the broker socket: handed back, or closed by the requester
			ob := obs[b.Pos]
			switch {
			case b.Pos == winB || len(ob.spare) > 0:
				sb.WriteString(" | prx closed=[] open=[]")
			case len(ob.open) > 0:
				sb.WriteString(" | prx closed=[] open=[0]")
			default:
				sb.WriteString(" | prx closed=[0] open=[]")
			}
			continue
		}
		ob := obs[b.Pos]
		fmt.Fprintf(&sb, " | std closed=%s open=%s spare=[%s]", showInts(ob.closed), showInts(ob.open), strings.Join(ob.spare, ","))
	}
	o.log("dstate", sb.String())
	if dbg := os.Getenv("VERIF_CCB_DEBUG"); dbg != "" {
		var kinds []string
		for _, b := range launched {
			kinds = append(kinds, fmt.Sprintf("%s@%v(req=%v)", b.Plan.Kind, b.tcpAt.Sub(t0).Round(time.Millisecond), b.gotReq))
		}
		f, _ := os.OpenFile(dbg, os.O_APPEND|os.O_CREATE|os.O_WRONLY, 0o644)
		fmt.Fprintf(f, "%s seq=%v timeout=%v ret=%v err=%q launched=%v\n", sp.Label, sp.Sequential, sp.Timeout, tRet.Sub(t0).Round(time.Millisecond), fmt.Sprint(err), kinds)
		f.Close()
	}

	// ---- property oracle on the implementation ---------------------------------------------
	single := len(sp.Plans) == 1
	if conn != nil && err == nil {
		if winB < 0 {
			o.violate("C20:dial-returned-unknown", "Dial returned a connection whose far end is none of the scripted peers", "a scripted connection", "unknown far end")
		} else {
			b := w.brokers[winB]
			p := b.peers[winK]
			okRet := p.Matching
			if b.Plan.Kind == "proxy" || b.Plan.Kind == "nested" {
				okRet = p.Matching && b.Plan.PReply == "ok"
			}
			if !okRet {
				o.violate("C20:dial-returned-nonmatching:"+b.Plan.Kind+":"+ccbKind(p.G), "Dial handed back a connection that did not present the fresh connect id of its request",
					"only the connection whose hello carries the id sent to that broker", fmt.Sprintf("broker %d connection %d: %s (reply %s)", winB, winK, p.G, b.Plan.PReply))
			}
		}
	}
	for _, b := range launched {
		ob := obs[b.Pos]
		if dbg := os.Getenv("VERIF_CCB_DEBUG"); dbg != "" && len(ob.open) > 0 {
			buf := make([]byte, 1<<22)
			n := runtime.Stack(buf, true)
			_ = os.WriteFile(dbg+".stacks", buf[:n], 0o644)
		}
		for _, k := range ob.open {
			p := b.peers[k]
			o.violate("C20:dial-left-open:"+b.Plan.Kind+":"+ccbKind(p.G), "a connection with a wrong id / malformed greeting was still open after Dial returned",
				"closed", fmt.Sprintf("broker %d connection %d (%s) open %v after return [dial returned after %v, timeout %v]",
					b.Pos, k, p.G, ccbGrace, tRet.Sub(t0).Round(time.Millisecond), sp.Timeout))
		}
	}
	// a failure reported by the broker ends the attempt with that error
	if single && sp.Plans[0].Kind == "std" {
		b := w.brokers[0]
		failMsg, failed, matchedBefore, raced := "", false, false, false
		for _, st := range sp.Plans[0].Steps {
			if st.Kind == "arrive" && st.G.Class == "hello" && st.G.Claim == "ID" && st.G.Cmd == int64(ccb.CommandReverseConnect) && !failed {
				matchedBefore = true
			}
			if st.Kind == "arrive" && st.G.Class == "silent" && !matchedBefore {
				break
			}
			if st.Kind == "reply" && !failed && !matchedBefore {
				if st.Reply == "failure" || st.Reply == "noresult" {
					failed, failMsg = true, st.Msg
				}
				break
			}
			if st.Kind == "race" {
				failed, failMsg, raced = true, st.Msg, true
				break
			}
		}
		_ = b
		if failed && !matchedBefore {
			// "a failure reported by the broker ends the attempt with that error": the dial's error
			// carries the text the broker sent (as a substring / wrapped cause) — however the library
			// words the rest of its message
			okc := (err != nil && strings.Contains(err.Error(), failMsg)) || (raced && conn != nil)
			if !okc {
				o.violate("C20:broker-failure-not-reported", "the broker reported a failure but the dial did not end with that error", "error carrying \"broker failure: "+failMsg+"\"", fmt.Sprintf("conn=%v err=%v", conn != nil, err))
			} else if err != nil && tRet.Sub(t0) > sp.Timeout/2 && sp.Timeout >= 2*time.Second {
				o.violate("C20:broker-failure-not-prompt", "the broker's failure reply did not end the attempt (the dial waited for its timeout)", "prompt return", tRet.Sub(t0).String())
			}
		}
	}
	// fresh ids: one per request, 40 hex characters, never seen before in this run
	ccbIDMu.Lock()
	for _, b := range w.brokers {
		b.mu.Lock()
		if b.gotReq {
			if len(b.id) != 40 || strings.Trim(b.id, "0123456789abcdef") != "" {
				o.violate("C20:id-format", "the connect id is not 160 bits of hex", "40 hex characters", b.id)
			}
			if prev, dup := ccbIDsSeen[b.id]; dup {
				o.violate("C20:id-reused", "a connect id was used for more than one request", "a fresh id per attempt", "id of "+prev+" reused in "+sp.Label)
			}
			ccbIDsSeen[b.id] = fmt.Sprintf("%s/broker%d", sp.Label, b.Pos)
			ccbIDsObserved = append(ccbIDsObserved, b.id)
		}
		b.mu.Unlock()
	}
	ccbIDMu.Unlock()
	// second winner left open: observed, not a C20 clause
	for _, b := range launched {
		for _, s := range obs[b.Pos].spare {
			if strings.HasSuffix(s, "o") {
				o.count("dial:observed:matching-conn-not-returned-left-open")
			} else {
				o.count("dial:observed:matching-conn-not-returned-closed")
			}
		}
	}
	if conn != nil {
		_ = conn.Close()
	}
	o.count(fmt.Sprintf("dial:brokers:%d", len(sp.Plans)))
	o.count(fmt.Sprintf("dial:launched:%d", max(len(launched), 1)))
	for _, pl := range sp.Plans {
		o.count("dial:broker:" + pl.Kind)
		for _, st := range pl.Steps {
			switch st.Kind {
			case "arrive":
				o.count("dial:greet:" + ccbKind(st.G))
			case "reply":
				o.count("dial:reply:" + st.Reply)
			case "race":
				o.count("dial:race")
			}
		}
		if pl.Kind == "proxy" || pl.Kind == "nested" {
			o.count("dial:preply:" + pl.PReply)
			o.count("dial:phello:" + ccbKind(pl.PHello))
		}
	}
	o.count("dial:outcome:" + strings.SplitN(strings.SplitN(realRet, "[", 2)[0], ":", 3)[0] + ":" + func() string {
		if conn != nil {
			return "returned"
		}
		return strings.SplitN(strings.TrimPrefix(realRet, "err:"), "[", 2)[0]
	}())
	for _, b := range w.brokers {
		for _, p := range b.peers {
			if p.G.Class == "hello" || b.Plan.Kind == "proxy" || b.Plan.Kind == "nested" {
				o.nontrivial = true
			}
		}
	}
	return o
}

// ---------------------------------------------------------------------------------------
// scenario generators for the dial layer

func ccbMsg(c *Ctx) string {
	msgs := []string{"gone", "notregistered", "targetbusy7", "", "denied"}
	return msgs[c.Rng.Intn(len(msgs))]
}

// ccbStdPlan: rogue connections, optionally the legitimate one somewhere, a broker reply
// somewhere. outcome ∈ match | fail | close | none | race
func ccbStdPlan(c *Ctx, outcome string, maxRogue int, others []int, allowSilent bool) ccbPlan {
	pl := ccbPlan{Kind: "std"}
	n := c.Rng.Intn(maxRogue + 1)
	var steps []ccbStep
	for i := 0; i < n; i++ {
		steps = append(steps, ccbStep{Kind: "arrive", G: ccbRandGreet(c, "rogue", allowSilent && outcome == "none", others)})
	}
	ins := func(s ccbStep, pos int) {
		steps = append(steps[:pos], append([]ccbStep{s}, steps[pos:]...)...)
	}
	switch outcome {
	case "match":
		pos := c.Rng.Intn(len(steps) + 1)
		ins(ccbStep{Kind: "arrive", G: ccbRandGreet(c, "match", false, nil)}, pos)
		switch c.Rng.Intn(3) {
		case 0: // success reply before the reverse connection
			ins(ccbStep{Kind: "reply", Reply: "success"}, c.Rng.Intn(pos+1))
		case 1: // success reply after it (never read)
			steps = append(steps, ccbStep{Kind: "reply", Reply: "success"})
		}
	case "fail":
		kind := []string{"failure", "failure", "noresult"}[c.Rng.Intn(3)]
		ins(ccbStep{Kind: "reply", Reply: kind, Msg: ccbMsg(c)}, c.Rng.Intn(len(steps)+1))
		if c.Rng.Intn(2) == 0 { // the legitimate connection shows up after the failure (listener gone)
			steps = append(steps, ccbStep{Kind: "arrive", G: ccbRandGreet(c, "match", false, nil)})
		}
	case "close":
		ins(ccbStep{Kind: "reply", Reply: "close"}, c.Rng.Intn(len(steps)+1))
	case "race":
		first := []string{"reply", "arrive"}[c.Rng.Intn(2)]
		steps = append(steps, ccbStep{Kind: "race", G: ccbRandGreet(c, "match", false, nil), Msg: ccbMsg(c), First: first})
	case "none":
		if c.Rng.Intn(2) == 0 {
			ins(ccbStep{Kind: "reply", Reply: "success"}, c.Rng.Intn(len(steps)+1))
		}
	case "stall":
		// a connection that says nothing occupies the accept loop; whatever comes later — even the
		// legitimate hello — waits in the backlog until the dial times out
		ins(ccbStep{Kind: "arrive", G: ccbGreet{Class: "silent", Variant: ccbSilent[c.Rng.Intn(len(ccbSilent))]}}, c.Rng.Intn(len(steps)+1))
		if c.Rng.Intn(2) == 0 {
			steps = append(steps, ccbStep{Kind: "arrive", G: ccbRandGreet(c, "match", false, nil)})
		}
		if c.Rng.Intn(3) == 0 {
			steps = append(steps, ccbStep{Kind: "arrive", G: ccbRandGreet(c, "rogue", false, others)})
		}
	}
	pl.Steps = steps
	return pl
}

func ccbProxyPlan(c *Ctx, kind string, outcome string, others []int) ccbPlan {
	pl := ccbPlan{Kind: kind, Version: ccbVerStreaming}
	switch outcome {
	case "match":
		pl.PReply, pl.PHello = "ok", ccbRandGreet(c, "match", false, nil)
		if c.Rng.Intn(3) == 0 { // the reply names an id too: it must not matter
			pl.PClaim, pl.PRand = ccbReplyClaims[c.Rng.Intn(len(ccbReplyClaims))], ccbRandID(c)
		}
	case "roguehello":
		pl.PReply, pl.PHello = "ok", ccbRandGreet(c, "rogue", false, others)
		if c.Rng.Intn(2) == 0 {
			// the broker names an id in its reply and the hello presents exactly that one
			pl.PClaim, pl.PRand = ccbReplyClaims[1+c.Rng.Intn(len(ccbReplyClaims)-1)], ccbRandID(c)
			if pl.PClaim != "SAME" && c.Rng.Intn(3) != 0 {
				pl.PHello = ccbGreet{Class: "hello", Cmd: int64(ccb.CommandReverseConnect), Claim: "BROKER", Attr: "ClaimId", Extras: c.Rng.Intn(2) == 0, Rand: ccbRandID(c)}
			}
		}
	case "fail":
		pl.PReply, pl.PMsg, pl.PHello = "fail", ccbMsg(c), ccbRandGreet(c, "", false, others)
	case "unsup":
		pl.PReply, pl.PHello = "unsup", ccbRandGreet(c, "", false, others)
	case "close":
		pl.PReply, pl.PHello = "close", ccbGreet{Class: "closed", Variant: "immediate"}
	case "oldversion":
		pl.Version = ccbVerNoStreaming
		pl.PReply, pl.PHello = "ok", ccbRandGreet(c, "match", false, nil)
	}
	return pl
}

func ccbGenDial(c *Ctx, idx int) ccbDialSpec {
	sp := ccbDialSpec{Label: fmt.Sprintf("dial#%d", idx), Timeout: 8 * time.Second, Stagger: 25 * time.Millisecond}
	r := c.Rng.Intn(100)
	switch {
	case r < 40: // one broker, standard mode
		out := []string{"match", "match", "match", "fail", "fail", "race", "race", "close", "none", "stall"}[c.Rng.Intn(10)]
		sp.Plans = []ccbPlan{ccbStdPlan(c, out, 3, nil, true)}
		if out == "none" || out == "stall" {
			sp.Timeout = 150 * time.Millisecond
		}
		sp.Label += "/std/" + out
	case r < 43: // a nested contact that does not split: fails before any network activity
		sp.Plans = []ccbPlan{{Kind: "nested", PReply: "ok", PHello: ccbAtom(c, "M")}}
		sp.NestedBad = []bool{true}
		sp.Label += "/nested/malformed"
	case r < 60: // one broker, proxied or nested
		kind := []string{"proxy", "proxy", "nested"}[c.Rng.Intn(3)]
		out := []string{"match", "match", "roguehello", "roguehello", "roguehello", "fail", "unsup", "close", "oldversion"}[c.Rng.Intn(9)]
		sp.Plans = []ccbPlan{ccbProxyPlan(c, kind, out, nil)}
		sp.Proxy = kind == "proxy"
		sp.Require = sp.Proxy && c.Rng.Intn(2) == 0
		sp.Label += "/" + kind + "/" + out
	default: // 2–3 brokers, any subset works
		n := 2 + c.Rng.Intn(2)
		sp.Sequential = c.Rng.Intn(3) == 0
		proxy := c.Rng.Intn(4) == 0
		sp.Proxy = proxy
		anyWork, anyPending := false, false
		for i := 0; i < n; i++ {
			var others []int
			for j := 0; j < n; j++ {
				if j != i {
					others = append(others, j)
				}
			}
			k := c.Rng.Intn(100)
			var pl ccbPlan
			switch {
			case k < 40:
				anyWork = true
				if proxy {
					pl = ccbProxyPlan(c, "proxy", "match", others)
				} else {
					pl = ccbStdPlan(c, "match", 2, others, false)
				}
			case k < 65:
				if proxy {
					pl = ccbProxyPlan(c, "proxy", []string{"fail", "roguehello", "unsup", "oldversion"}[c.Rng.Intn(4)], others)
				} else {
					pl = ccbStdPlan(c, "fail", 2, others, false)
				}
			case k < 80:
				pl = ccbPlan{Kind: "down"}
			case k < 90:
				pl = ccbPlan{Kind: "dead"}
				anyPending = true
			default:
				if proxy {
					pl = ccbProxyPlan(c, "proxy", "close", others)
				} else {
					pl = ccbStdPlan(c, "none", 2, others, false) // only rogues ever show up
					anyPending = true
				}
			}
			sp.Plans = append(sp.Plans, pl)
		}
		if !anyWork && anyPending {
			sp.Timeout = 200 * time.Millisecond
		}
		if sp.Sequential && anyPending {
			sp.Timeout = 250 * time.Millisecond
		}
		sp.Label += fmt.Sprintf("/multi%d", n)
	}
	return sp
}

// ---------------------------------------------------------------------------------------

func runCcb(c *Ctx) error {
	c.Res.Rule = "accept: every arrival order of ≤3 (thorough ≤4) connections over {matching hello, wrong id, empty id, earlier request's id, right id under a wrong command, garbage, immediate close, silent} plus random longer sequences with byte-level varieties, on the real acceptReversed; proxy: every broker reply × replayed hello class on the real proxyRequestOnStream; dial: real ccb.Dial over loopback TCP with scripted brokers — rogue connections around the legitimate one, success/failure/no reply racing the reverse connection, proxied and nested contacts, 1–3 brokers (working, failing, refusing, dead) in staggered and sequential mode; 300 consecutive GenerateConnectID values checked for relatedness (Hamming distance); observables: far end of the returned connection, closed state of every other scripted connection, ids of all requests; distinct by op sequence; non-trivial = at least one connection reached the id comparison"
	// the handshake code logs every step at INFO on the default logger
	prevLog := slog.Default()
	slog.SetDefault(slog.New(slog.NewTextHandler(io.Discard, &slog.HandlerOptions{Level: slog.LevelError + 4})))
	defer slog.SetDefault(prevLog)
	// A connection the library forgets to close is closed by its finalizer at the next GC cycle,
	// which would hide the leak from the scripted peer. Collect only under memory pressure.
	prevGC := debug.SetGCPercent(-1)
	prevLim := debug.SetMemoryLimit(1500 << 20)
	defer func() { debug.SetGCPercent(prevGC); debug.SetMemoryLimit(prevLim) }()
	var outs []*ccbOut
	var old []string
	for i := 0; i < 3; i++ {
		id, _ := ccb.GenerateConnectID()
		old = append(old, id)
	}
	// "fresh, unguessable": consecutive ids of one process must be unrelated 160-bit values. Two
	// independent random values differ in about 80 of 160 bits (fewer than 40 with probability
	// below 1e-10); a counter, a stepped seed or a reused value differs in a handful.
	{
		prev := ""
		minHam, eq := 160, 0
		for i := 0; i < 300; i++ {
			id, err := ccb.GenerateConnectID()
			if err != nil {
				continue
			}
			a, e1 := hex.DecodeString(prev)
			b, e2 := hex.DecodeString(id)
			if prev != "" && e1 == nil && e2 == nil && len(a) == len(b) {
				h := 0
				for k := range a {
					h += bits.OnesCount8(a[k] ^ b[k])
				}
				if h < minHam {
					minHam = h
				}
				if h == 0 {
					eq++
				}
			}
			prev = id
		}
		c.Count(fmt.Sprintf("connect-id:min-hamming-distance-of-consecutive-ids>=40:%v", minHam >= 40))
		if minHam < 40 {
			c.Violate(Violation{Property: "C20", Key: "C20:connect-id-predictable", What: "consecutive connect ids are closely related: whoever saw one request's id can derive the ids of later requests and present them on their reverse-connect listeners",
				Ops: []string{"# 300 consecutive ccb.GenerateConnectID() values, Hamming distance between neighbours"}, Expected: "about 80 of 160 bits differ (never fewer than 40)", Observed: fmt.Sprintf("minimum %d bits, %d identical neighbours", minHam, eq)})
		}
	}
	only := os.Getenv("VERIF_CCB_LAYER") // debugging aid: run a single layer
	t0 := time.Now()
	// layer accept: exhaustive short sequences
	atoms := []string{"M", "W", "E", "O", "X", "G", "C", "S"}
	maxLen := c.Pick(3, 4)
	var rec func(prefix []string)
	rec = func(prefix []string) {
		var gs []ccbGreet
		for _, a := range prefix {
			gs = append(gs, ccbAtom(c, a))
		}
		outs = append(outs, ccbAcceptCase("accept/"+strings.Join(prefix, ""), gs, old))
		if len(prefix) == maxLen {
			return
		}
		for _, a := range atoms {
			rec(append(append([]string{}, prefix...), a))
		}
	}
	if only == "" || only == "accept" {
		rec(nil)
	}
	for i := 0; i < c.Pick(2000, 30000) && (only == "" || only == "accept"); i++ {
		n := 1 + c.Rng.Intn(6)
		var gs []ccbGreet
		for j := 0; j < n; j++ {
			gs = append(gs, ccbRandGreet(c, "", true, nil))
		}
		outs = append(outs, ccbAcceptCase(fmt.Sprintf("accept/rand#%d", i), gs, old))
	}
	tA := time.Since(t0)
	// layer proxy
	replies := []string{"ok", "fail", "noresult", "unsup", "junk", "close"}
	for rep := 0; rep < c.Pick(2, 12) && (only == "" || only == "proxy"); rep++ {
		for _, r := range replies {
			for _, a := range atoms {
				if a == "S" && rep > 0 {
					continue // a silent hello after a success reply costs the context timeout
				}
				outs = append(outs, ccbProxyCase("proxy/"+r+"/"+a, r, ccbMsg(c), ccbAtom(c, a), old))
			}
			nr := 6
			if r == "ok" {
				nr = 80 // the hello is only looked at after a success reply
			}
			for j := 0; j < nr; j++ {
				outs = append(outs, ccbProxyCase(fmt.Sprintf("proxy/%s/rand#%d", r, j), r, ccbMsg(c), ccbRandGreet(c, "", rep == 0 && j < 10, nil), old))
			}
			// the reply ad ITSELF names a connect id (the requester's own, another one, an earlier
			// request's, garbage) and the replayed hello presents each candidate: the id the broker
			// named, the requester's own, some other
			if r == "ok" || r == "fail" {
				for _, rc := range ccbReplyClaims[1:] {
					for _, hc := range []string{"BROKER", "ID", "RAND", "OLD", "EMPTY"} {
						h := ccbGreet{Class: "hello", Cmd: int64(ccb.CommandReverseConnect), Claim: hc, Attr: ccbAttrs[c.Rng.Intn(len(ccbAttrs))], Extras: c.Rng.Intn(2) == 0, Rand: ccbRandID(c)}
						outs = append(outs, ccbProxyCaseClaim(fmt.Sprintf("proxy/%s+claim:%s/hello:%s", r, rc, hc), r, ccbMsg(c), h, old, rc, ccbRandID(c)))
					}
				}
			}
		}
	}
	tB := time.Since(t0) - tA
	// layer dial: specs are drawn first (deterministic), then run on a small worker pool
	nDial := c.Pick(1200, 16000)
	if only != "" && only != "dial" {
		nDial = 0
	}
	specs := make([]ccbDialSpec, nDial)
	for i := range specs {
		specs[i] = ccbGenDial(c, i)
	}
	dres := make([]*ccbOut, nDial)
	var wg sync.WaitGroup
	sem := make(chan struct{}, 6)
	for i := range specs {
		wg.Add(1)
		sem <- struct{}{}
		go func(i int) {
			defer wg.Done()
			defer func() { <-sem }()
			dres[i] = ccbDialCase(specs[i], old)
		}(i)
	}
	wg.Wait()
	// A dial case runs on real sockets and the library's own clocks, six at a time: a finding is judged
	// only after the case, run again ON ITS OWN, shows it again (the scripted brokers make the case
	// deterministic up to scheduling; a defect of the library is there the second time too).
	for i := range dres {
		first := dres[i]
		if first == nil || len(first.violations) == 0 || int(ccbViolations.Load())-len(first.violations) >= ccbEnough {
			continue
		}
		ccbViolations.Add(-int32(len(first.violations)))
		again := ccbDialCase(specs[i], old)
		if again != nil && len(again.cs.Ops) > 0 {
			again.count("dial:violation-rechecked-alone")
			if len(again.violations) == 0 {
				again.count("dial:violation-not-reproduced-alone")
			}
			dres[i] = again
		} else {
			ccbViolations.Add(int32(len(first.violations)))
		}
	}
	outs = append(outs, dres...)
	// "unguessable" on the Dial path: the ids that really travelled to the brokers, not ids obtained by
	// calling the generator directly
	if nDial > 0 {
		ccbIDMu.Lock()
		ids := append([]string{}, ccbIDsObserved...)
		ccbIDMu.Unlock()
		minHam, ia, ib, sameStep, usable := ccbRelatedness(ids)
		c.Res.Distribution["dial:connect-ids-observed-at-brokers"] += usable
		c.Count(fmt.Sprintf("dial:observed-ids:min-hamming-distance-of-any-pair>=40:%v", minHam >= 40))
		if usable < 50 {
			c.Res.Notes = append(c.Res.Notes, fmt.Sprintf("only %d connect ids were observed at the brokers: relatedness of Dial's ids not assessed", usable))
		} else if minHam < 40 || sameStep > 0 {
			c.Violate(Violation{Property: "C20", Key: "C20:dial-connect-id-predictable", What: "the connect ids real Dials sent to the brokers are closely related (two of them differ in few bits, or neighbours differ by a constant step): whoever saw one request's id can derive others and present them on reverse-connect listeners",
				Ops:      []string{fmt.Sprintf("# %d connect ids observed by the scripted brokers during the dial layer (standard, proxied and nested requests); all pairs compared", usable)},
				Expected: "pairwise about 80 of 160 bits differ (never fewer than 40); no constant step between neighbours", Observed: fmt.Sprintf("minimum %d bits (%s vs %s); %d neighbours with a repeated step", minHam, ia, ib, sameStep)})
		}
	}
	c.Res.Notes = append(c.Res.Notes, fmt.Sprintf("layers: accept %.1fs, proxy %.1fs, dial %.1fs", tA.Seconds(), tB.Seconds(), (time.Since(t0)-tA-tB).Seconds()))

	var cases []Case
	samples := map[string]bool{}
	for _, o := range outs {
		// planned vs run, per layer: a case whose world could not be set up, that was skipped because the
		// machine was too busy for its clock, or that was dropped after ten violations did not run
		planLayer := "unknown"
		if o != nil {
			planLayer = strings.SplitN(o.cs.Label, "/", 2)[0]
			if strings.HasPrefix(planLayer, "dial") {
				planLayer = "dial"
			}
		}
		c.Planned("ccb-"+planLayer+"-cases", 1)
		if o != nil && len(o.cs.Ops) > 0 {
			c.Ran("ccb-"+planLayer+"-cases", 1)
		}
		if o == nil || len(o.cs.Ops) == 0 {
			c.Count("skipped")
			if o != nil {
				for _, k := range o.counts {
					c.Count(k)
				}
			}
			continue
		}
		for _, v := range o.violations {
			c.Violate(v)
		}
		for _, k := range o.counts {
			c.Count(k)
		}
		c.Distinct(strings.Join(o.cs.Ops, "\n"), o.nontrivial)
		layer := strings.SplitN(o.cs.Label, "/", 2)[0]
		if strings.HasPrefix(layer, "dial") {
			layer = "dial"
		}
		if !samples[layer] && len(o.cs.Ops) > 4 {
			samples[layer] = true
			c.Sample(map[string]any{"label": o.cs.Label, "ops": abbreviate(o.cs.Ops), "real": abbreviate(o.cs.Real)})
		}
		cases = append(cases, o.cs)
	}
	return diffBatch(c, "ccb", cases, ccbNorm)
}
