package main

// C11, nonce freshness and replay (property oracle on the implementation only; in the model the
// nonces are parameters -- "fresh" is crypto/rand's):
//
//   * every RA the real client and every RB the real server put on the wire during the whole run
//     are pairwise distinct -- in particular for the SAME token and key on two connections, so a
//     nonce that is a constant or a function of the token / key / identity is caught;
//   * a recorded honest exchange replayed message for message against a fresh server (the client's
//     messages 1 and 3) and against a fresh client holding the same token (the server's message 2)
//     is rejected.

import (
	"fmt"
	"os"
	"strings"
	"time"

	"github.com/bbockelm/cedar/security"
	"github.com/bbockelm/cedar/stream"
)

type nonceBook struct {
	seen map[string]string // kind+bytes -> where first seen
	dups map[string]int
}

var tokNonces = &nonceBook{seen: map[string]string{}, dups: map[string]int{}}

func (nb *nonceBook) reset() { nb.seen, nb.dups = map[string]string{}, map[string]int{} }

// note records a nonce the implementation drew; a repeat is a violation of the freshness clause.
func (nb *nonceBook) note(c *Ctx, kind string, b []byte, where string, ops []string) {
	if len(b) == 0 {
		return
	}
	k := kind + ":" + string(b)
	if first, dup := nb.seen[k]; dup {
		nb.dups[kind]++
		if nb.dups[kind] <= 3 {
			c.Violate(Violation{Property: "C11", Key: "C11:nonce-reused:" + kind,
				What:     "the " + kind + " nonce of a token exchange was already used on an earlier connection of this run: it is not fresh, so a recorded proof over it can be replayed",
				Ops:      append([]string{"first seen in: " + first, "seen again in: " + where}, abbreviate(ops)...),
				Expected: "every nonce drawn is new (pairwise distinct over the run)", Observed: kind + "=" + hx(b)})
		}
		return
	}
	nb.seen[k] = where
}

// replayServer feeds a fresh server (same configuration) the recorded bytes of messages 1 and 3.
func replayServer(cfg *security.SecurityConfig, m1b, m3b []byte) (accepted bool, rb []byte) {
	conn := &scriptConn{}
	sent3 := false
	var m2out []byte
	conn.script = func(turn int, written []byte) []byte {
		switch {
		case turn == 0:
			return m1b
		case len(written) > 0 && !sent3:
			sent3 = true
			m2out = written
			return m3b
		}
		return nil
	}
	st := stream.NewStream(conn)
	a := security.NewAuthenticator(cfg, st)
	neg := &security.SecurityNegotiation{IsClient: false, ServerConfig: cfg, ClientConfig: &security.SecurityConfig{}}
	var err error
	func() {
		defer func() {
			if r := recover(); r != nil {
				err = fmt.Errorf("PANIC: %v", r)
			}
		}()
		err = a.PerformTokenAuthenticationDemo(security.AuthToken, neg)
	}()
	if m2 := parseM2(m2out); m2 != nil && m2.ok {
		rb = m2.rb
	}
	return err == nil, rb
}

// replayClient feeds a fresh client holding the same token the recorded bytes of message 2.
func replayClient(tokenStr string, m2b []byte) (accepted bool, ra []byte) {
	conn := &scriptConn{}
	sent := false
	conn.script = func(turn int, written []byte) []byte {
		if len(written) > 0 && !sent {
			sent = true
			if m1 := parseM1(written); m1.ok {
				ra = m1.ra
			}
			return m2b
		}
		return nil
	}
	cfg := &security.SecurityConfig{Token: tokenStr}
	st := stream.NewStream(conn)
	a := security.NewAuthenticator(cfg, st)
	neg := &security.SecurityNegotiation{IsClient: true, ClientConfig: cfg, ServerConfig: &security.SecurityConfig{}}
	var err error
	func() {
		defer func() {
			if r := recover(); r != nil {
				err = fmt.Errorf("PANIC: %v", r)
			}
		}()
		so := os.Stdout
		if dn, e := os.OpenFile(os.DevNull, os.O_WRONLY, 0); e == nil {
			os.Stdout = dn
			defer func() { os.Stdout = so; dn.Close() }()
		}
		err = a.PerformTokenAuthenticationDemo(security.AuthToken, neg)
	}()
	return err == nil, ra
}

// tokenFreshness: same token on several connections, and replays of recorded honest exchanges.
func tokenFreshness(c *Ctx, m *tokMat) {
	rounds := c.Pick(25, 300)
	for r := 0; r < rounds; r++ {
		// ---- server: an honest exchange, then its client messages replayed against a fresh server
		kn := m.baseCfg(c)
		w, cfg := newTokWorld(c, kn.ks, kn.maxAge, kn.envAge, kn.td)
		g := &tgen{c: c, w: w, m: m}
		k := baseServer(g, kn)
		k.label = "fresh:honest"
		t0 := time.Now().Unix()
		res := w.runServer(cfg, k)
		where := fmt.Sprintf("freshness round %d, token %s", r, k.hp)
		ops := []string{"server, token " + k.hp, "message 1 (recorded) " + res.m1.op()}
		if res.m2 != nil && res.m2.ok && res.m2.status == 0 {
			tokNonces.note(c, "RB", res.m2.rb, where+" (recorded run)", ops)
		}
		if res.err != nil || res.m3 == nil {
			c.Count("fresh:honest-server-run-refused")
			if time.Now().Unix() == t0 {
				c.Res.Notes = append(c.Res.Notes, "freshness: the honest server exchange to be recorded was refused: "+tokVerdict(res.err, ""))
			}
		} else {
			for rep := 0; rep < 2; rep++ {
				acc, rb2 := replayServer(cfg, res.m1.bytes(), res.m3.bytes())
				tokNonces.note(c, "RB", rb2, fmt.Sprintf("%s (replay %d)", where, rep), ops)
				c.Count("fresh:server-replay")
				c.Distinct(fmt.Sprintf("fresh:srv:%d:%d", r, rep), true)
				if acc {
					c.Violate(Violation{Property: "C11", Key: "C11:replay-accepted:server",
						What:     "the client half of a recorded honest token exchange (messages 1 and 3, byte for byte) was accepted by a fresh server: the replaying party demonstrated nothing",
						Ops:      append(ops, "message 3 (recorded) "+res.m3.op(), "recorded RB "+hx(res.m2.rb), "fresh server's RB "+hx(rb2)),
						Expected: "reject (the proof is over the earlier run's RB)", Observed: "accept"})
				}
			}
		}
		// ---- client: an honest server's message 2, replayed against a fresh client with the same token
		kn2 := m.baseCfg(c)
		w2, _ := newTokWorld(c, kn2.ks, kn2.maxAge, kn2.envAge, kn2.td)
		g2 := &tgen{c: c, w: w2, m: m}
		kc := baseClient(g2, kn2)
		kc.label = "fresh:honest"
		cres := w2.runClient(kc)
		cwhere := fmt.Sprintf("freshness round %d, client token %s", r, strings.SplitN(kc.tokenStr, ".", 3)[1])
		cops := []string{"client, token " + kc.tokenStr}
		if cres.m1 != nil && cres.m1.ok && cres.m1.status == 0 {
			tokNonces.note(c, "RA", cres.m1.ra, cwhere+" (recorded run)", cops)
		}
		if cres.err != nil || cres.m2 == nil {
			c.Count("fresh:honest-client-run-refused")
			continue
		}
		for rep := 0; rep < 2; rep++ {
			acc, ra2 := replayClient(kc.tokenStr, cres.m2.bytes())
			tokNonces.note(c, "RA", ra2, fmt.Sprintf("%s (replay %d)", cwhere, rep), cops)
			c.Count("fresh:client-replay")
			c.Distinct(fmt.Sprintf("fresh:cli:%d:%d", r, rep), true)
			if acc {
				c.Violate(Violation{Property: "C11", Key: "C11:replay-accepted:client",
					What:     "a recorded message 2 of an honest server, replayed byte for byte, was accepted by a fresh client holding the same token: the replaying party demonstrated nothing",
					Ops:      append(cops, "message 2 (recorded) "+cres.m2.op(), "recorded RA "+hx(cres.m1.ra), "fresh client's RA "+hx(ra2)),
					Expected: "reject (the proof is over the earlier run's RA)", Observed: "accept"})
			}
		}
	}
	c.Res.Distribution["fresh:nonces-collected"] = len(tokNonces.seen)
}
