// Package refcodec is an independent implementation of the CEDAR frame format and its
// AES-256-GCM protection, written from protocol/CEDAR_PROTOCOL.md and the statement of
// property C12 — not from stream.go. It shares only Go's crypto primitives with cedar.
//
//	frame   = flag(1) len(4, big endian) payload(len)
//	payload = [baseIV(16) on the direction's first protected frame] ciphertext tag(16)
//	nonce   = baseIV with its leading big-endian 32-bit word advanced by the frame counter
//	aad     = [SHA256(cleartext sent) SHA256(cleartext received) on the first frame] header(5)
//	          (32 zero bytes for a direction in which nothing was exchanged in the clear)
package refcodec

import (
	"crypto/aes"
	"crypto/cipher"
	"crypto/sha256"
	"encoding/binary"
	"errors"
)

type Frame struct {
	Flag byte
	Len  uint32
	Body []byte
}

// ParseFrames splits a byte stream into frames; rest is an incomplete tail.
func ParseFrames(b []byte) (frames []Frame, rest []byte) {
	for len(b) >= 5 {
		n := binary.BigEndian.Uint32(b[1:5])
		if uint64(len(b)-5) < uint64(n) {
			break
		}
		frames = append(frames, Frame{Flag: b[0], Len: n, Body: b[5 : 5+n]})
		b = b[5+n:]
	}
	return frames, b
}

func (f Frame) Bytes() []byte {
	out := make([]byte, 5+len(f.Body))
	out[0] = f.Flag
	binary.BigEndian.PutUint32(out[1:5], f.Len)
	copy(out[5:], f.Body)
	return out
}

func Header(flag byte, n uint32) []byte {
	h := make([]byte, 5)
	h[0] = flag
	binary.BigEndian.PutUint32(h[1:], n)
	return h
}

// Dir is one protected direction as the documented format defines it.
type Dir struct {
	aead    cipher.AEAD
	BaseIV  [16]byte
	HaveIV  bool
	Counter uint32
	First   bool     // next frame is the first protected frame of this direction
	DigSelf [32]byte // digest of cleartext sent by the sender of this direction
	DigPeer [32]byte // digest of cleartext received by the sender of this direction
}

func NewDir(key []byte, digSelf, digPeer [32]byte) (*Dir, error) {
	blk, err := aes.NewCipher(key)
	if err != nil {
		return nil, err
	}
	a, err := cipher.NewGCMWithNonceSize(blk, 16)
	if err != nil {
		return nil, err
	}
	return &Dir{aead: a, First: true, DigSelf: digSelf, DigPeer: digPeer}, nil
}

// Digest is SHA-256 of the cleartext bytes, or 32 zero bytes when nothing was exchanged.
func Digest(cleartext []byte, any bool) [32]byte {
	if !any {
		return [32]byte{}
	}
	return sha256.Sum256(cleartext)
}

func (d *Dir) nonce() []byte {
	n := make([]byte, 16)
	copy(n, d.BaseIV[:])
	w := binary.BigEndian.Uint32(d.BaseIV[:4]) + d.Counter
	binary.BigEndian.PutUint32(n[:4], w)
	return n
}

func (d *Dir) aad(hdr []byte) []byte {
	if d.First {
		a := make([]byte, 0, 69)
		a = append(a, d.DigSelf[:]...)
		a = append(a, d.DigPeer[:]...)
		return append(a, hdr...)
	}
	return append([]byte{}, hdr...)
}

type Opened struct {
	Plain   []byte
	HadIV   bool
	NonceW0 uint32
	FirstAAD bool
}

// Open authenticates and decrypts the next frame of the direction.
func (d *Dir) Open(f Frame) (*Opened, error) {
	if d.Counter == 0xffffffff {
		return nil, errors.New("counter exhausted")
	}
	body := f.Body
	res := &Opened{FirstAAD: d.First}
	if d.Counter == 0 && !d.HaveIV {
		if len(body) < 16 {
			return nil, errors.New("no room for IV")
		}
		copy(d.BaseIV[:], body[:16])
		body = body[16:]
		res.HadIV = true
	}
	if len(body) < 16 {
		return nil, errors.New("no room for tag")
	}
	n := d.nonce()
	res.NonceW0 = binary.BigEndian.Uint32(n[:4])
	pt, err := d.aead.Open(nil, n, body, d.aad(Header(f.Flag, f.Len)))
	if err != nil {
		if res.HadIV {
			d.BaseIV = [16]byte{}
		}
		return nil, err
	}
	if res.HadIV {
		d.HaveIV = true
	}
	d.Counter++
	d.First = false
	if pt == nil {
		pt = []byte{}
	}
	res.Plain = pt
	return res, nil
}

// Seal builds the next protected frame of the direction (for feeding a real receiver).
func (d *Dir) Seal(flag byte, plain []byte) Frame {
	sendIV := d.Counter == 0
	n := uint32(len(plain) + 16)
	if sendIV {
		n += 16
	}
	hdr := Header(flag, n)
	ct := d.aead.Seal(nil, d.nonce(), plain, d.aad(hdr))
	var body []byte
	if sendIV {
		body = append(body, d.BaseIV[:]...)
	}
	body = append(body, ct...)
	d.Counter++
	d.First = false
	d.HaveIV = true
	return Frame{Flag: flag, Len: n, Body: body}
}
