// Package bufpipe is an in-memory full-duplex net.Conn pair with unbounded buffers: writes never
// block, reads block until data arrives or either end is closed. Every byte written by each end
// is recorded for inspection.
package bufpipe

import (
	"io"
	"net"
	"sync"
	"sync/atomic"
	"time"
)

type half struct {
	mu      sync.Mutex
	cond    *sync.Cond
	buf     []byte
	closed  bool
	log     []byte // everything ever written into this half
	inj     []byte // tail of what was injected into this half (WriteHook only)
	waiters int    // readers blocked in Read on this half
}

type Conn struct {
	rd, wr *half
	name   string
	once   sync.Once
	remote addr
	self   atomic.Bool // Close was called on THIS end (as opposed to the peer's Close closing both halves)
}

type addr string

func (a addr) Network() string { return "tcp" }
func (a addr) String() string  { return string(a) }

// Pair returns two connected ends. a.RemoteAddr() is addrB and vice versa.
func Pair(addrA, addrB string) (*Conn, *Conn) {
	ab, ba := &half{}, &half{}
	ab.cond = sync.NewCond(&ab.mu)
	ba.cond = sync.NewCond(&ba.mu)
	return &Conn{rd: ba, wr: ab, name: addrA, remote: addr(addrB)}, &Conn{rd: ab, wr: ba, name: addrB, remote: addr(addrA)}
}

func (c *Conn) Read(p []byte) (int, error) {
	h := c.rd
	h.mu.Lock()
	defer h.mu.Unlock()
	for len(h.buf) == 0 {
		if h.closed {
			return 0, io.EOF
		}
		h.waiters++
		h.cond.Wait()
		h.waiters--
	}
	n := copy(p, h.buf)
	h.buf = h.buf[n:]
	return n, nil
}

func (c *Conn) Write(p []byte) (int, error) {
	h := c.wr
	h.mu.Lock()
	defer h.mu.Unlock()
	if h.closed {
		return 0, net.ErrClosed
	}
	if WriteHook != nil {
		WriteHook(logTail(h.log), p)
	}
	h.buf = append(h.buf, p...)
	h.log = append(h.log, p...)
	h.cond.Broadcast()
	return len(p), nil
}

// WriteHook, when set (before any Conn is used), sees every chunk that enters a pipe direction
// (Write and Inject): tail is up to TailLen bytes that entered the same direction just before p.
// The harness uses it to record names that crossed ITS OWN wire (FS directory names); it must not
// retain or modify the slices.
var WriteHook func(tail, p []byte)

const TailLen = 512

func logTail(l []byte) []byte {
	if len(l) > TailLen {
		return l[len(l)-TailLen:]
	}
	return l
}

// Close closes both directions (like a TCP close seen by both sides).
func (c *Conn) Close() error {
	c.self.Store(true)
	c.once.Do(func() {
		for _, h := range []*half{c.rd, c.wr} {
			h.mu.Lock()
			h.closed = true
			h.cond.Broadcast()
			h.mu.Unlock()
		}
	})
	return nil
}

// Written returns everything this end has written so far.
func (c *Conn) Written() []byte {
	c.wr.mu.Lock()
	defer c.wr.mu.Unlock()
	return append([]byte{}, c.wr.log...)
}

// Inject appends raw bytes to what this end will read (as if the peer had written them).
func (c *Conn) Inject(p []byte) {
	h := c.rd
	h.mu.Lock()
	if WriteHook != nil {
		WriteHook(logTail(h.inj), p)
	}
	h.inj = append(logTail(h.inj), p...)
	h.buf = append(h.buf, p...)
	h.cond.Broadcast()
	h.mu.Unlock()
}

func (c *Conn) IsClosed() bool {
	c.rd.mu.Lock()
	defer c.rd.mu.Unlock()
	return c.rd.closed
}

func (c *Conn) LocalAddr() net.Addr                { return addr(c.name) }
func (c *Conn) RemoteAddr() net.Addr               { return c.remote }
func (c *Conn) SetDeadline(t time.Time) error      { return nil }
func (c *Conn) SetReadDeadline(t time.Time) error  { return nil }
func (c *Conn) SetWriteDeadline(t time.Time) error { return nil }

// ClosedBySelf reports whether Close was called on this very end. IsClosed cannot tell who closed:
// either end's Close closes both halves (like a TCP close seen by both sides).
func (c *Conn) ClosedBySelf() bool { return c.self.Load() }

// CloseWrite closes only the direction this end writes into: the peer reads what is buffered and
// then EOF, while it can still write (a half-close, like shutdown(SHUT_WR)).
func (c *Conn) CloseWrite() {
	h := c.wr
	h.mu.Lock()
	h.closed = true
	h.cond.Broadcast()
	h.mu.Unlock()
}

// ReadWaiting reports whether a Read on this end is blocked right now: a reader is parked, nothing is
// buffered for it and the direction is open. Together with WrittenLen (sampled before and after) a
// harness can tell a set of connections on which every party waits for another -- a stall that no
// amount of time resolves -- from one that is merely slow, without any timer.
func (c *Conn) ReadWaiting() bool {
	h := c.rd
	h.mu.Lock()
	defer h.mu.Unlock()
	return h.waiters > 0 && len(h.buf) == 0 && !h.closed
}

// WrittenLen: how many bytes this end has written so far.
func (c *Conn) WrittenLen() int {
	c.wr.mu.Lock()
	defer c.wr.mu.Unlock()
	return len(c.wr.log)
}
