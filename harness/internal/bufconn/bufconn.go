// Package bufconn is a deterministic, single-threaded net.Conn: writes are recorded,
// reads are served from a buffer the harness fills; reading an empty buffer is io.EOF.
package bufconn

import (
	"io"
	"net"
	"time"
)

type Conn struct {
	In     []byte // bytes still to be read by the stream
	Out    []byte // everything the stream wrote since the last TakeOut
	AllOut []byte // everything ever written
	Closed bool
	Reads  int
	Writes int
	Remote net.Addr
	// EOFReads counts the Reads that found nothing left: a reader that went on to wait for bytes the
	// wire does not hold (an effect the harness can judge on, whatever error text the reader returns)
	EOFReads int
	// write-failure injection: when FailNext is set, the next Write delivers only the first FailKeep
	// bytes of its argument (FailKeep < 0: all but the last -FailKeep bytes), returns FailErr (nil: a
	// short write without an error) and leaves the connection open, like a socket whose write deadline
	// expires mid-frame. One shot; Failed counts the writes that were cut, FailedWrote is what the last
	// one let through.
	FailNext    bool
	FailKeep    int
	FailErr     error
	Failed      int
	FailedWrote []byte
}

func New() *Conn { return &Conn{} }

func (c *Conn) Read(p []byte) (int, error) {
	c.Reads++
	if c.Closed {
		return 0, net.ErrClosed
	}
	if len(c.In) == 0 {
		c.EOFReads++
		return 0, io.EOF
	}
	n := copy(p, c.In)
	c.In = c.In[n:]
	return n, nil
}

func (c *Conn) Write(p []byte) (int, error) {
	c.Writes++
	if c.Closed {
		return 0, net.ErrClosed
	}
	if c.FailNext {
		c.FailNext = false
		c.Failed++
		k := c.FailKeep
		if k < 0 {
			k = len(p) + k
		}
		if k < 0 {
			k = 0
		}
		if k > len(p) {
			k = len(p)
		}
		c.Out = append(c.Out, p[:k]...)
		c.AllOut = append(c.AllOut, p[:k]...)
		c.FailedWrote = append([]byte{}, p[:k]...)
		return k, c.FailErr
	}
	c.Out = append(c.Out, p...)
	c.AllOut = append(c.AllOut, p...)
	return len(p), nil
}

// TakeOut returns and clears the bytes written since the last call.
func (c *Conn) TakeOut() []byte {
	o := c.Out
	c.Out = nil
	return o
}

func (c *Conn) Feed(b []byte)                      { c.In = append(c.In, b...) }
func (c *Conn) Close() error                       { c.Closed = true; return nil }
func (c *Conn) LocalAddr() net.Addr                { return nil }
func (c *Conn) RemoteAddr() net.Addr               { return c.Remote }
func (c *Conn) SetDeadline(t time.Time) error      { return nil }
func (c *Conn) SetReadDeadline(t time.Time) error  { return nil }
func (c *Conn) SetWriteDeadline(t time.Time) error { return nil }
