// Package orc runs the Lean oracle (cedar_oracle <engine>) over a batch of op lines and
// provides the canonical renderings both sides print.
package orc

import (
	"bytes"
	"encoding/hex"
	"fmt"
	"os"
	"os/exec"
	"strings"
)

// Run pipes lines to the oracle and returns one reply per line.
func Run(oraclePath, engine string, lines []string) ([]string, error) {
	var in bytes.Buffer
	for _, l := range lines {
		in.WriteString(l)
		in.WriteByte('\n')
	}
	cmd := exec.Command(oraclePath, engine)
	cmd.Stdin = &in
	var out bytes.Buffer
	cmd.Stdout = &out
	cmd.Stderr = os.Stderr
	if err := cmd.Run(); err != nil {
		return nil, fmt.Errorf("oracle %s: %w", engine, err)
	}
	s := strings.TrimRight(out.String(), "\n")
	if s == "" {
		return nil, nil
	}
	return strings.Split(s, "\n"), nil
}

// ShowBytes mirrors Cedar.showBytes in CedarModel/Basic.lean.
func ShowBytes(b []byte) string {
	if len(b) == 0 {
		return "-"
	}
	if len(b) <= 48 {
		return hex.EncodeToString(b)
	}
	return DigestOf(b)
}

func DigestOf(b []byte) string {
	s, m := uint64(0), uint64(7)
	for _, x := range b {
		s = (s + uint64(x)) % 65521
		m = (m*31 + uint64(x) + 1) % 4294967291
	}
	return fmt.Sprintf("n%ds%dm%d", len(b), s, m)
}

// Payload renders bytes for an op line: "-", hex, or fill:<n>:<byte> when constant.
func Payload(b []byte) string {
	if len(b) == 0 {
		return "-"
	}
	if len(b) > 16 {
		same := true
		for _, x := range b {
			if x != b[0] {
				same = false
				break
			}
		}
		if same {
			return fmt.Sprintf("fill:%d:%02x", len(b), b[0])
		}
	}
	return hex.EncodeToString(b)
}
